#!/bin/bash
# Builds the checker offline from /verif/checker (x/tools v0.29.0 from the module cache).
cd "$(dirname "$0")/checker" || exit 1
export GOFLAGS=-mod=mod GOPROXY=off GOSUMDB=off GOTOOLCHAIN=local GOWORK=off
mkdir -p ../bin ../evidence
go build -o ../bin/mvcheck . || exit 1
echo "built $(cd .. && pwd)/bin/mvcheck"
