#!/bin/bash
# usage: try_patch.sh <patch.diff> <prop> [tier]   — applies the patch to /repo, runs the check, reverts.
P="$1"; ID="$2"; TIER="${3:-quick}"
cd /repo || exit 2
git diff --quiet || { echo "/repo not clean"; exit 2; }
git apply "$P" || { echo "patch does not apply"; exit 2; }
(cd /verif && MVCHECK_NO_EVIDENCE=1 ./check.sh "$ID" "$TIER" | grep -E "violated:|VIOLATION|^OK|UNDECIDED|KNOWN" | cut -c1-300)
git -C /repo checkout -- . && git -C /repo clean -fdq -- model2d model3d toolbox3d render3d numerical fileformats templates
