#!/usr/bin/env python3
"""Writes MANIFEST.json from manifest_src.json (claims) — keeps it valid."""
import json, sys
src = json.load(open('manifest_src.json'))
baseline = json.load(open('/root/.vp/BASELINE.json'))['cmd'] if len(sys.argv) < 2 else sys.argv[1]
checks = []
for c in src['claims']:
    pid = c['id']
    checks.append({
        "property_id": pid,
        "quick_cmd": "./check.sh %s quick" % pid,
        "thorough_cmd": "./check.sh %s thorough" % pid,
        "evidence_file": "evidence/%s.json" % pid,
        "replay_cmd_template": "./check.sh %s quick  # violation detail: {path}" % pid,
        "engine": "mvcheck",
        "level_claimed": {"category": "other", "text": c['text'], "design_ref": c.get('design_ref', 'DESIGN.md §5 ' + pid)},
        "level_note": c['note'],
        "technique": c['technique'],
    })
m = {
    "version": 1,
    "setup_cmd": "./setup.sh",
    "hooks": {
        "guard": "verif",
        "enable": "none needed: the checks are static (nothing of /repo is built or executed); no file in /repo carries the tag",
        "baseline_off_cmd": baseline,
        "source_commits": [],
        "add_only": True,
    },
    "engines": [{
        "name": "mvcheck", "path": "checker/",
        "serves_properties": [c['id'] for c in src['claims']],
        "kind_free_text": "repository-specific static analyser (go/packages + go/types + go/ssa + VTA call graph, x/tools v0.29.0): structured abstract interpretation of event/counter pairs, effect summaries, decoder taint/guard rules, table enumeration, units-of-measure dataflow",
    }],
    "checks": checks,
    "notes": src['notes'],
    "not_applicable": src['not_applicable'],
}
json.dump(m, open('MANIFEST.json', 'w'), indent=1)
print("MANIFEST.json: %d checks, %d not applicable" % (len(checks), len(m['not_applicable'])))
