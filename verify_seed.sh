#!/bin/bash
# usage: verify_seed.sh <dir with patch.diff demo_test.go notes.md> [label]
# Confirms in a scratch worktree of /repo (removed afterwards) that the change applies, builds,
# keeps codegen clean, passes the unedited library suite, and that the demo fails with / passes without it.
D="$1"; L="${2:-$(basename $D)}"
export GOFLAGS=-mod=mod GOPROXY=off GOSUMDB=off GOTOOLCHAIN=local; unset GOWORK
W=$(mktemp -d /tmp/vseed.XXXXXX); rmdir $W
git -C /repo worktree add -q --detach $W HEAD || { echo "RESULT $L worktree=fail"; exit 1; }
trap 'git -C /repo worktree remove --force $W >/dev/null 2>&1; rm -rf $W' EXIT
cd $W
DEMODIR=$(sed -n 's/^demo_dir: *//p' $D/notes.md | head -1)
DEMOCMD=$(sed -n 's/^demo_cmd: *//p' $D/notes.md | head -1)
[ -z "$DEMODIR" ] && { echo "RESULT $L notes=missing-demo_dir"; exit 1; }
# demo without the patch
cp $D/demo_test.go $DEMODIR/zz_seed_demo_test.go
(cd $DEMODIR && eval "$DEMOCMD" >/tmp/vs_$$.out 2>&1); WITHOUT=$?
rm -f $DEMODIR/zz_seed_demo_test.go
git apply $D/patch.diff 2>/dev/null || { echo "RESULT $L apply=FAIL"; exit 1; }
go build ./... >/dev/null 2>&1 && BUILD=ok || BUILD=FAIL
go run codegen.go -check >/dev/null 2>&1 && CG=ok || CG=FAIL
TESTS=ok
go test -vet=off -count=1 ./model2d/ ./model3d/ ./toolbox3d/ ./render3d/ ./numerical/ ./fileformats/ >/tmp/vs_$$.t 2>&1 || {
  if grep -q "^--- FAIL" /tmp/vs_$$.t && [ "$(grep '^--- FAIL' /tmp/vs_$$.t | grep -v TestBidirPathTracer | wc -l)" = 0 ]; then
     go test -vet=off -count=1 ./render3d/ >/dev/null 2>&1 && TESTS="ok(after-retry)" || TESTS=FAIL
  else TESTS=FAIL; fi; }
cp $D/demo_test.go $DEMODIR/zz_seed_demo_test.go
(cd $DEMODIR && eval "$DEMOCMD" >/tmp/vs_$$.out2 2>&1); WITH=$?
rm -f $DEMODIR/zz_seed_demo_test.go /tmp/vs_$$.*
echo "RESULT $L apply=ok build=$BUILD codegen=$CG tests=$TESTS demo_with_patch=$([ $WITH != 0 ] && echo fails || echo PASSES) demo_without_patch=$([ $WITHOUT = 0 ] && echo passes || echo FAILS)"
